import LalModel.Model.Go
import LalModel.Model.Sdp
/-
  Model of pkg/base/url.go: ParseUrl, parseUrlPath, ParseRtmpUrl, ParseRtspUrl, ParseHttpflvUrl,
  UrlContext.calcFilenameAndTypeIfNeeded. `net/url.Parse`, `net.SplitHostPort` and `net.JoinHostPort` are
  not modelled: what they return for the raw URL is an INPUT of the model (`Std`), so the model covers
  exactly lal's own string slicing on top of them, for every value they could return.
-/
namespace Lal.UrlCtx
open Lal Lal.Sdp

/-- what the standard library makes of the raw URL -/
structure Std where
  ok       : Bool            -- url.Parse succeeded
  scheme   : Bytes
  host     : Bytes           -- URL.Host
  path     : Bytes           -- URL.Path
  rawQuery : Bytes
  split    : Option (Bytes × Bytes)   -- net.SplitHostPort(URL.Host), `none` = error

structure Ctx where
  scheme : Bytes := []
  stdHost : Bytes := []
  hostWithPort : Bytes := []
  host : Bytes := []
  port : Int := 0
  pathWithRawQuery : Bytes := []
  path : Bytes := []
  pathWithoutLastItem : Bytes := []
  lastItemOfPath : Bytes := []
  rawQuery : Bytes := []
  rawUrlWithoutUserInfo : Bytes := []
deriving Repr, DecidableEq

/-- `strings.LastIndexByte` -/
def lastIndexByte (s : Bytes) (c : UInt8) : Option Nat :=
  let rec go : Bytes → Nat → Option Nat → Option Nat
    | [], _, acc => acc
    | x :: r, i, acc => go r (i + 1) (if x = c then some i else acc)
  go s 0 none

/-- `net.JoinHostPort` -/
def joinHostPort (host port : Bytes) : Bytes :=
  if host.contains 58 ∨ host.contains 37 then [91] ++ host ++ [93, 58] ++ port else host ++ [58] ++ port

def defaultPortOf (scheme : Bytes) (dflt : Int) : Int :=
  if dflt ≠ -1 then dflt
  else if scheme = asc "http" then 80 else if scheme = asc "https" then 443
  else if scheme = asc "rtmp" then 1935 else if scheme = asc "rtsp" then 554
  else if scheme = asc "rtmps" then 443 else if scheme = asc "rtsps" then 322
  else -1

/-- `parseUrlPath` : (PathWithoutLastItem, LastItemOfPath) -/
def splitPath (path : Bytes) : GoM (Bytes × Bytes) :=
  match lastIndexByte path 47 with
  | none => .ok ([], [])
  | some index =>
    if index = 0 then
      if path = [47] then .ok ([], [])
      else match from? "ctx.Path[1:]" path 1 with
        | .error f => .error f
        | .ok l => .ok ([], l)
    else
      match slice? "ctx.Path[1:index]" path 1 index with
      | .error f => .error f
      | .ok a =>
        match from? "ctx.Path[index+1:]" path (index + 1) with
        | .error f => .error f
        | .ok l => .ok (a, l)

/-- host, HostWithPort and port of `ParseUrl`: `none` = the port is not a number -/
def hostPort (u : Std) (dp : Int) : Option (Bytes × Bytes × Int) :=
  match u.split with
  | none =>
    if dp = -1 then some (u.host, u.host, 0)
    else some (u.host, joinHostPort u.host (itoa dp), dp)
  | some (h, p) =>
    if (atoi p).2 then some (h, u.host, (atoi p).1) else none

/-- `ParseUrl(rawUrl, defaultPort)` -/
def parseUrl (u : Std) (dflt : Int) : GoM Ctx :=
  if !u.ok then .error .err
  else if u.scheme = [] then .error .err
  else
    match hostPort u (defaultPortOf u.scheme dflt) with
    | none => .error .err
    | some (host, hostWithPort, port) =>
      match splitPath u.path with
      | .error f => .error f
      | .ok (pw, last) =>
        let pwrq := if u.rawQuery = [] then u.path else u.path ++ [63] ++ u.rawQuery
        .ok { scheme := u.scheme, stdHost := u.host, hostWithPort := hostWithPort, host := host, port := port,
              pathWithRawQuery := pwrq, path := u.path, pathWithoutLastItem := pw, lastItemOfPath := last,
              rawQuery := u.rawQuery, rawUrlWithoutUserInfo := u.scheme ++ asc "://" ++ u.host ++ pwrq }

/-- the "more than one question mark" special case of `ParseRtmpUrl` -/
def rtmpFix (c : Ctx) : GoM Ctx :=
  let p := c.pathWithRawQuery
  match lastIndexByte p 47 with
  | some index =>
    match (if index > 0 then slice? "PathWithRawQuery[1:index]" p 1 index else .ok []) with
    | .error f => .error f
    | .ok a =>
      match from? "PathWithRawQuery[index+1:]" p (index + 1) with
      | .error f => .error f
      | .ok l => .ok { c with path := p, pathWithoutLastItem := a, lastItemOfPath := l, rawQuery := [] }
  | none =>
    match from? "PathWithRawQuery[index+1:]" p 0 with
    | .error f => .error f
    | .ok l => .ok { c with path := p, pathWithoutLastItem := [], lastItemOfPath := l, rawQuery := [] }

/-- `ParseRtmpUrl` -/
def parseRtmpUrl (u : Std) : GoM Ctx :=
  match parseUrl u (-1) with
  | .error f => .error f
  | .ok c =>
    if (c.scheme ≠ asc "rtmp" ∧ c.scheme ≠ asc "rtmps") ∨ c.host = [] ∨ c.path = [] then .error .err
    else
      let c := if c.pathWithoutLastItem = [] ∧ c.lastItemOfPath ≠ []
               then { c with pathWithoutLastItem := c.lastItemOfPath, lastItemOfPath := [] } else c
      if (c.pathWithRawQuery.filter (· == 63)).length > 1 then rtmpFix c else .ok c

/-- `ParseRtspUrl` -/
def parseRtspUrl (u : Std) : GoM Ctx :=
  match parseUrl u (-1) with
  | .error f => .error f
  | .ok c => if (c.scheme ≠ asc "rtsp" ∧ c.scheme ≠ asc "rtsps") ∨ c.host = [] then .error .err else .ok c

def hasSuffix (suf s : Bytes) : Bool := suf.length ≤ s.length && s.drop (s.length - suf.length) == suf

/-- `ParseHttpflvUrl` -/
def parseHttpflvUrl (u : Std) : GoM Ctx :=
  match parseUrl u (-1) with
  | .error f => .error f
  | .ok c =>
    if (c.scheme ≠ asc "http" ∧ c.scheme ≠ asc "https") ∨ c.host = [] ∨ c.path = [] ∨ !hasSuffix (asc ".flv") c.lastItemOfPath then .error .err
    else .ok c

/-- `calcFilenameAndTypeIfNeeded` : (GetFilenameWithoutType, GetFileType) -/
def fileNameType (c : Ctx) : GoM (Bytes × Bytes) :=
  match lastIndexByte c.lastItemOfPath 46 with
  | none => .ok ([], [])
  | some index =>
    match upto? "LastItemOfPath[:index]" c.lastItemOfPath index with
    | .error f => .error f
    | .ok a =>
      match from? "LastItemOfPath[index+1:]" c.lastItemOfPath (index + 1) with
      | .error f => .error f
      | .ok t => .ok (a, t)

end Lal.UrlCtx
