import LalModel.Model.GopCache
import LalModel.Model.Chunk
import LalModel.Model.Flv
import LalModel.Model.Ws
import LalModel.Model.Amf0
import LalModel.Generated.C08
import LalModel.Generated.Consts
/-
  Model of the RTMP/FLV side of logic.Group (pkg/logic/group__core_streaming.go
  broadcastByRtmpMsg, group__out_sub.go, group__in.go addIn/delIn, group__record_flv.go),
  with remux.LazyRtmpChunkDivider / LazyRtmpMsg2FlvTag / MakeDefaultRtmpHeader (pkg/remux/rtmp.go,
  rtmp2flv.go), base.MergeWriter and remux.GopCache. Every critical section of the Go
  (one `group.mutex` hold) is one `Ev`. Outputs are byte-exact: what each consumer's
  connection (or the FLV recording) is written, write by write.
-/
namespace Lal.Group

structure Cfg where
  rtmpCache : Bool := true     -- RtmpConfig.Enable || RtmpsEnable
  flvCache : Bool := true      -- HttpflvConfig.Enable
  rtmpGopNum : Nat := 0
  rtmpCap : Nat := 0
  flvGopNum : Nat := 0
  flvCap : Nat := 0
  mergeSize : Nat := 0         -- RtmpConfig.MergeWriteSize (0 = no merge writer)
  recordFlv : Bool := false
deriving Repr, DecidableEq

/-- a message as the input session hands it to `OnReadRtmpAvMsg` -/
structure InMsg where
  typ : Nat
  ts : Nat
  payload : Bytes
deriving Repr, DecidableEq

inductive Kind | rtmp | flv | wsflv | record
deriving Repr, DecidableEq

inductive Ev where
  | addPub                          -- AddRtmpPubSession (accepted or refused)
  | delPub                          -- DelRtmpPubSession of the accepted publisher
  | msg (m : InMsg)                 -- OnReadRtmpAvMsg
  | join (k : Kind) (id : Nat)      -- AddRtmpSubSession / AddHttpflvSubSession
  | leave (k : Kind) (id : Nat)     -- Del…SubSession
deriving Repr, DecidableEq

structure Sub where
  id : Nat
  fresh : Bool := true
  waitKey : Bool := true
  ws : Bool := false
  /-- ghost: what was written when the subscriber stopped being fresh -/
  pro : List Bytes := []
  /-- ghost: index in `pubLog` of the first live message (none while fresh or waiting) -/
  start : Option Nat := none
deriving Repr, DecidableEq

structure Merge where
  currSize : Nat := 0
  bs : List Bytes := []
deriving Repr, DecidableEq

structure St where
  cfg : Cfg
  hasIn : Bool := false
  videoCodecSet : Bool := false     -- group.stat.VideoCodec != ""
  rtmpGop : GopCache.T
  flvGop : GopCache.T
  merge : Merge := {}
  rtmpSubs : List Sub := []
  flvSubs : List Sub := []
  recording : Option Nat := none    -- index of the recording being written
  nextRecord : Nat := 0
  /-- every write, in order: consumer kind, id, bytes -/
  out : List (Kind × Nat × Bytes) := []
  /-- ghost: every non-empty message broadcast so far (all incarnations), in order -/
  pubLog : List InMsg := []
  /-- ghost: index in `pubLog` of the first message still pending in the merge writer -/
  mergeFrom : Nat := 0
  /-- ghost: every subscriber id ever admitted -/
  usedIds : List Nat := []
deriving Repr

def init (cfg : Cfg) : St :=
  { cfg := cfg, rtmpGop := GopCache.new cfg.rtmpGopNum cfg.rtmpCap, flvGop := GopCache.new cfg.flvGopNum cfg.flvCap }

/-! ### serialisation of one message -/

/-- `remux.MakeDefaultRtmpHeader` -/
def defaultHeader (typ ts len : Nat) : Chunk.Header :=
  { csid := if typ == 18 then 5 else if typ == 8 then 6 else if typ == 9 then 7 else 0,
    msgLen := len, typ := typ, msid := 1, ts := ts }

def withoutSdf (typ : Nat) (p : Bytes) : Bytes :=
  if typ == 18 then
    match Amf0.metadataEnsureWithoutSdf p with
    | .ok (b, _) => b
    | .error _ => p
  else p

def withSdf (typ : Nat) (p : Bytes) : Bytes :=
  if typ == 18 then
    match Amf0.metadataEnsureWithSdf p with
    | .ok (b, _) => b
    | .error _ => p
  else p

/-- `LazyRtmpChunkDivider.GetEnsureWithoutSdf()` -/
def chunksWithoutSdf (m : InMsg) : Bytes :=
  let p := withoutSdf m.typ m.payload
  Chunk.message2Chunks p (defaultHeader m.typ m.ts p.length) none Gen.localChunkSize

/-- `LazyRtmpChunkDivider.GetEnsureWithSdf()` -/
def chunksWithSdf (m : InMsg) : Bytes :=
  let p := withSdf m.typ m.payload
  Chunk.message2Chunks p (defaultHeader m.typ m.ts p.length) none Gen.localChunkSize

/-- `LazyRtmpMsg2FlvTag.GetEnsureWithoutSdf()` -/
def tagWithoutSdf (m : InMsg) : Bytes :=
  Flv.packTag (b8 m.typ) m.ts (withoutSdf m.typ m.payload)

/-! ### writes -/

def St.write (s : St) (k : Kind) (id : Nat) (b : Bytes) : St := { s with out := s.out ++ [(k, id, b)] }

def St.writeAll (s : St) (k : Kind) (id : Nat) (bs : List Bytes) : St :=
  { s with out := s.out ++ bs.map fun b => (k, id, b) }

/-- `httpflv.SubSession.Write`: one or two connection writes (WebSocket header, payload) -/
def St.writeFlv (s : St) (sub : Sub) (b : Bytes) : St :=
  s.writeAll (if sub.ws then .wsflv else .flv) sub.id (Ws.subWrite sub.ws b)

def St.writeFlvAll (s : St) (sub : Sub) (bs : List Bytes) : St := bs.foldl (fun s b => s.writeFlv sub b) s

/-- `writev2RtmpSubSessions` / `write2RtmpSubSessions`: to every sub that is neither fresh nor waiting -/
def St.toRtmpSubs (s : St) (bs : List Bytes) : St :=
  s.rtmpSubs.foldl (fun s sub => if sub.fresh || sub.waitKey then s else s.writeAll .rtmp sub.id bs) s

/-- `MergeWriter.flush` via `onWritev = writev2RtmpSubSessions` -/
def St.mergeFlushNow (s : St) : St :=
  let s1 := s.toRtmpSubs s.merge.bs
  { s1 with merge := {}, mergeFrom := s.pubLog.length }

/-- `MergeWriter.Flush` -/
def St.mergeFlush (s : St) : St :=
  if s.merge.currSize > 0 then s.mergeFlushNow else { s with mergeFrom := s.pubLog.length }

/-- `MergeWriter.Write` -/
def St.mergeWrite (s : St) (b : Bytes) : St :=
  let s1 := { s with merge := { currSize := s.merge.currSize + b.length, bs := s.merge.bs ++ [b] } }
  if s1.merge.currSize ≥ s.cfg.mergeSize then s1.mergeFlushNow else s1

def prologue (g : GopCache.T) : List Bytes :=
  g.metaWithout.toList ++ g.vsh.toList ++ g.ash.toList ++ GopCache.allGopData g

/-! ### broadcastByRtmpMsg -/

def St.getRtmp (s : St) (id : Nat) : Option Sub := s.rtmpSubs.find? (·.id == id)
def St.modRtmp (s : St) (id : Nat) (f : Sub → Sub) : St :=
  { s with rtmpSubs := s.rtmpSubs.map fun x => if x.id == id then f x else x }
def St.getFlv (s : St) (id : Nat) : Option Sub := s.flvSubs.find? (·.id == id)
def St.modFlv (s : St) (id : Nat) (f : Sub → Sub) : St :=
  { s with flvSubs := s.flvSubs.map fun x => if x.id == id then f x else x }

/-- one iteration of the loop over `rtmpSubSessionSet`. While `MergeWriter.Flush` runs the
    subscriber's flags are still the old ones (fresh / waiting), so the flush skips it. -/
def rtmpOne (key : Bool) (hdr : Option Bytes) (s : St) (id : Nat) : St :=
  match s.getRtmp id with
  | none => s
  | some sub =>
    let s1 :=
      if sub.fresh then
        let pro := prologue s.rtmpGop
        let sA := s.writeAll .rtmp sub.id pro
        let sB := if s.cfg.mergeSize > 0 then sA.mergeFlush else sA
        let w := if GopCache.gopCount s.rtmpGop > 0 then false else sub.waitKey
        sB.modRtmp id fun x => { x with fresh := false, waitKey := w, pro := pro,
                                        start := if w then none else some s.pubLog.length }
      else s
    match s1.getRtmp id with
    | none => s1
    | some sub1 =>
      -- a waiting subscriber still gets metadata and sequence headers (ghost: they extend its prologue)
      let s1h :=
        if sub1.waitKey && hdr.isSome then
          (s1.writeAll .rtmp id hdr.toList).modRtmp id fun x => { x with pro := x.pro ++ hdr.toList }
        else s1
      if sub1.waitKey && key then
        let sC := if s.cfg.mergeSize > 0 then s1h.mergeFlush else s1h
        sC.modRtmp id fun x => { x with waitKey := false, start := some s.pubLog.length }
      else s1h

def rtmpLoop (key : Bool) (hdr : Option Bytes) (s : St) : St := (s.rtmpSubs.map (·.id)).foldl (rtmpOne key hdr) s

/-- what one iteration of the loop over `httpflvSubSessionSet` does with one subscriber: the units it
    writes to it and the subscriber's new flags. `n` = index of the current message in the (ghost)
    publish log. Fresh: cached headers and GOPs first; then the current tag unless the subscriber is
    (still) waiting for a key frame and this is not one. -/
def flvOutcome (key isHdr : Bool) (g : GopCache.T) (tag : Bytes) (n : Nat) (x : Sub) : List Bytes × Sub :=
  let pro := prologue g
  let w := if GopCache.gopCount g > 0 then false else x.waitKey
  let (ws1, x1) : List Bytes × Sub :=
    if x.fresh then (pro, { x with fresh := false, waitKey := w, pro := pro, start := if w then none else some n })
    else ([], x)
  if x1.waitKey then
    if key then (ws1 ++ [tag], { x1 with waitKey := false, start := some n })
    else if isHdr then (ws1 ++ [tag], { x1 with pro := x1.pro ++ [tag] })   -- headers reach a waiting subscriber
    else (ws1, x1)
  else (ws1 ++ [tag], x1)

/-- one iteration of the loop over `httpflvSubSessionSet` (pubLog already holds the current message) -/
def flvOne (key isHdr : Bool) (tag : Bytes) (s : St) (id : Nat) : St :=
  match s.getFlv id with
  | none => s
  | some x =>
    let o := flvOutcome key isHdr s.flvGop tag (s.pubLog.length - 1) x
    (s.writeFlvAll x o.1).modFlv id (fun _ => o.2)

def flvLoop (key isHdr : Bool) (tag : Bytes) (s : St) : St := (s.flvSubs.map (·.id)).foldl (flvOne key isHdr tag) s

/-- metadata, video sequence header, AAC sequence header -/
def isHeaderMsg (m : InMsg) : Bool :=
  m.typ == 18 || Classify.isVideoKeySeqHeader m.typ m.payload || Classify.isAacSeqHeader m.typ m.payload

/-- append the message to the (ghost) publish log and hand it to the RTMP subscribers:
    directly, or through the merge writer -/
def forward (s0 : St) (m : InMsg) : St :=
  let s1 := { s0 with pubLog := s0.pubLog ++ [m] }
  if s1.rtmpSubs.isEmpty then s1
  else if s1.cfg.mergeSize == 0 then s1.toRtmpSubs [chunksWithoutSdf m]
  else s1.mergeWrite (chunksWithoutSdf m)

/-- FLV recording -/
def recordStage (s : St) (m : InMsg) : St :=
  match s.recording with
  | some r => s.write .record r (tagWithoutSdf m)
  | none => s

def rtmpCacheStage (s : St) (m : InMsg) : St :=
  if s.cfg.rtmpCache then
    let g := (GopCache.feed s.rtmpGop m.typ m.payload (chunksWithoutSdf m)).1
    let g := if m.typ == 18 then GopCache.setMetadata g (chunksWithSdf m) (chunksWithoutSdf m) else g
    { s with rtmpGop := g }
  else s

def flvCacheStage (s : St) (m : InMsg) : St :=
  if s.cfg.flvCache then
    let g := (GopCache.feed s.flvGop m.typ m.payload (tagWithoutSdf m)).1
    let g := if m.typ == 18 then GopCache.setMetadata g (tagWithoutSdf m) (tagWithoutSdf m) else g
    { s with flvGop := g }
  else s

def statStage (s : St) (m : InMsg) : St :=
  if !s.videoCodecSet && (Classify.isAvcKeySeqHeader m.typ m.payload || Classify.isHevcKeySeqHeader m.typ m.payload)
  then { s with videoCodecSet := true } else s

/-- `broadcastByRtmpMsg`, in the order of the Go: RTMP subscribers, HTTP-FLV subscribers, FLV recording,
    caches, stat -/
def broadcast (s : St) (m : InMsg) : St :=
  if m.payload.isEmpty then s else
  let key := Classify.isVideoKeyNalu m.typ m.payload
  let isHdr := isHeaderMsg m
  let s2 := forward (rtmpLoop key (if isHdr then some (chunksWithoutSdf m) else none) s) m
  let s3 := flvLoop key isHdr (tagWithoutSdf m) s2
  statStage (flvCacheStage (rtmpCacheStage (recordStage s3 m) m) m) m

/-! ### events -/

/-- `session.ShouldWaitVideoKeyFrame = false` (ghost: a waiting subscriber is live from publish index `n`) -/
def stopWaiting (n : Nat) (x : Sub) : Sub :=
  if x.waitKey then { x with waitKey := false, start := if x.fresh then none else some n } else x

/-- the state changes of `delIn` after the merge writer was flushed -/
def afterDelIn (s1 : St) (n : Nat) : St :=
  { s1 with hasIn := false, recording := none, videoCodecSet := false,
            rtmpGop := GopCache.clear s1.rtmpGop, flvGop := GopCache.clear s1.flvGop,
            rtmpSubs := s1.rtmpSubs.map (stopWaiting n),
            flvSubs := s1.flvSubs.map (stopWaiting n) }

/-- `AddHttpflvSubSession`: the FLV header is written (after the HTTP / WebSocket response header, which is
    not modelled) and the session joins the set -/
def joinFlv (s : St) (id : Nat) (ws : Bool) : St :=
  let x : Sub := { id := id, waitKey := s.videoCodecSet, ws := ws }
  St.writeFlv { s with flvSubs := s.flvSubs ++ [x], usedIds := id :: s.usedIds } x Gen.flvHeader

def step (s : St) : Ev → St
  | .addPub =>
    if s.hasIn then s else
    let s1 := { s with hasIn := true }
    if s.cfg.recordFlv then
      ({ s1 with recording := some s.nextRecord, nextRecord := s.nextRecord + 1 }).write .record s.nextRecord Gen.flvHeader
    else s1
  | .delPub =>
    if !s.hasIn then s else
    -- delIn: what the merge writer still holds is flushed; subscribers that stay stop waiting for the
    -- finished input's key frame; caches, recording and codec info are reset
    let s1 := if s.cfg.mergeSize > 0 then s.mergeFlush else s
    afterDelIn s1 s.pubLog.length
  | .msg m => if s.hasIn then broadcast s m else s
  | .join .rtmp id =>
    if s.usedIds.contains id then s else
    { s with rtmpSubs := s.rtmpSubs ++ [{ id := id, waitKey := s.videoCodecSet }], usedIds := id :: s.usedIds }
  | .join .flv id => if s.usedIds.contains id then s else joinFlv s id false
  | .join .wsflv id => if s.usedIds.contains id then s else joinFlv s id true
  | .join .record _ => s
  | .leave .rtmp id => { s with rtmpSubs := s.rtmpSubs.filter (·.id != id) }
  | .leave .flv id => { s with flvSubs := s.flvSubs.filter (·.id != id) }
  | .leave .wsflv id => { s with flvSubs := s.flvSubs.filter (·.id != id) }
  | .leave .record _ => s

def run (cfg : Cfg) (evs : List Ev) : St := evs.foldl step (init cfg)

/-- everything written to one consumer, in order -/
def St.log (s : St) (k : Kind) (id : Nat) : List Bytes :=
  (s.out.filter fun w => w.1 == k && w.2.1 == id).map (·.2.2)

end Lal.Group
