#!/bin/sh
# Builds the framework from files on disk only (offline): harness, regenerated facts, Lean library + driver.
set -e
cd "$(dirname "$0")"
export GOFLAGS=-mod=mod GOPROXY=off GOSUMDB=off GOTOOLCHAIN=local CGO_ENABLED=0
mkdir -p bin evidence replays
REPO="${LAL_REPO:-/repo}"
cp "$REPO/go.sum" harness/go.sum
if [ "$REPO" != /repo ]; then (cd harness && go mod edit -replace github.com/q191201771/lal="$REPO"); fi
(cd harness && go build -tags verif -o ../bin/harness .)
./bin/harness -prop extract -gendir lean/LalModel/Generated -repo "$REPO"
(cd lean && lake build)
echo setup-ok
