#!/bin/sh
# Builds the framework from files on disk only (offline): harness, regenerated facts, Lean library + driver.
set -e
cd "$(dirname "$0")"
export GOFLAGS=-mod=mod GOPROXY=off GOSUMDB=off GOTOOLCHAIN=local CGO_ENABLED=0
mkdir -p bin evidence replays
cp /repo/go.sum harness/go.sum
(cd harness && go build -tags verif -o ../bin/harness .)
./bin/harness -prop extract -gendir lean/LalModel/Generated -repo /repo
(cd lean && lake build)
echo setup-ok
