#!/usr/bin/env python3
"""tools/merge_workspace.py <name>: bring a builder workspace /tmp/w-<name>/verif into /verif.
New files are copied; registration files (lean/LalModel.lean, lean/Driver/Main.lean, known_findings.json) are merged
line-wise; lal commits on branch w-<name> are cherry-picked into /repo. Prints what it did."""
import json, os, re, shutil, subprocess, sys
name = sys.argv[1]
W = f"/tmp/w-{name}/verif"
V = "/verif"
def sh(*a, **k): return subprocess.run(a, text=True, capture_output=True, **k)
# 1. cherry-pick lal commits
commits = sh("git", "-C", "/repo", "log", "--reverse", "--format=%H %s", f"main..w-{name}").stdout.strip().splitlines()
have = set(sh("git", "-C", "/repo", "log", "--format=%s", "main").stdout.splitlines())
for c in commits:
    h, _, subj = c.partition(" ")
    if subj in have or any(subj.startswith(x) for x in os.environ.get("MERGE_SKIP", "\0").split("|")):
        print("already on main:", h[:7], subj); continue
    r = sh("git", "-C", "/repo", "cherry-pick", h)
    print("cherry-pick", h[:7], subj, "->", "ok" if r.returncode == 0 else "FAILED " + r.stderr[-300:])
    if r.returncode != 0:
        sh("git", "-C", "/repo", "cherry-pick", "--abort"); sys.exit(1)
# 2. files
base = None
for h in sh("git", "-C", W, "log", "--format=%H").stdout.split():
    if sh("git", "-C", V, "cat-file", "-e", h + "^{commit}").returncode == 0:
        base = h; break
if not base:
    print("no common commit"); sys.exit(1)
print("base", base[:8])
changed = sh("git", "-C", W, "diff", "--name-status", base, "HEAD").stdout.strip().splitlines()
special = {"lean/LalModel.lean", "lean/Driver/Main.lean", "known_findings.json", "harness/go.mod", "harness/go.sum", "MANIFEST.json"}
for line in changed:
    st, path = line.split("\t")[0], line.split("\t")[-1]
    if path in special or path.startswith("evidence/") or path.startswith("replays/"):
        continue
    src, dst = os.path.join(W, path), os.path.join(V, path)
    if st.startswith("D"):
        continue
    if st.startswith("M") and os.path.exists(dst):
        a = open(src).read(); b = open(dst).read()
        basev = sh("git", "-C", W, "show", f"{base}:{path}").stdout
        if b != basev and a != b:
            print("CONFLICT (both changed):", path); continue
    if st.startswith("A") and os.path.exists(dst) and open(src).read() != open(dst).read():
        print("CONFLICT (name clash, new file exists in /verif):", path); continue
    os.makedirs(os.path.dirname(dst), exist_ok=True)
    shutil.copyfile(src, dst)
    print("copied", path)
# LalModel.lean imports
def merge_lines(path):
    a = open(os.path.join(W, path)).read().splitlines(); b = open(os.path.join(V, path)).read().splitlines()
    add = [l for l in a if l.startswith("import ") and l not in b]
    if add:
        # keep imports first
        imports = [l for l in b if l.startswith("import ")] + add
        rest = [l for l in b if not l.startswith("import ")]
        open(os.path.join(V, path), "w").write("\n".join(imports + rest) + "\n")
        print("merged imports into", path, add)
merge_lines("lean/LalModel.lean")
merge_lines("lean/Driver/Main.lean")
# handlers list
wm = open(os.path.join(W, "lean/Driver/Main.lean")).read(); vm = open(os.path.join(V, "lean/Driver/Main.lean")).read()
wh = re.search(r"def handlers : List Handler := \[(.*?)\]", wm, re.S).group(1)
vh = re.search(r"def handlers : List Handler := \[(.*?)\]", vm, re.S).group(1)
wl = [x.strip() for x in wh.split(",")]; vl = [x.strip() for x in vh.split(",")]
new = vl + [x for x in wl if x not in vl]
vm = vm.replace(f"[{vh}]", "[" + ", ".join(new) + "]")
open(os.path.join(V, "lean/Driver/Main.lean"), "w").write(vm)
# known findings
wk = json.load(open(os.path.join(W, "known_findings.json"))); vk = json.load(open(os.path.join(V, "known_findings.json")))
ids = {f["id"] for f in vk["findings"]}
for f in wk["findings"]:
    if f["id"] not in ids:
        # map commit shas to the cherry-picked ones by subject
        vk["findings"].append(f); print("finding", f["id"], f["status"])
json.dump(vk, open(os.path.join(V, "known_findings.json"), "w"), indent=1)
