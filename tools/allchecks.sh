#!/bin/sh
# tools/allchecks.sh [tier] : every registered check in turn, one summary line each
cd /verif
for c in $(ls checklib | sed -n "s/^p_\(C[0-9]*\)\.py$/\1/p"); do
  out=$(./check $c ${1:+--tier $1} 2>&1); rc=$?
  echo "$c exit=$rc $(echo "$out" | grep "^$c:" | tail -1)"
  echo "$out" | grep "^VIOLATION" | head -2
done
