#!/usr/bin/env python3
"""tools/seeded_table.py: markdown table of /verif/seeded/*/meta.json (first run, recheck)."""
import json, glob, os, re
rows = []
for d in sorted(glob.glob("/verif/seeded/*"), key=lambda p: (p.split("/")[-1].split("-")[0], int(p.split("-")[-1]))):
    if not os.path.isdir(d): continue
    m = json.load(open(d + "/meta.json")); i = os.path.basename(d)
    prop = i.split("-")[0]
    files = m.get("files") or []
    if isinstance(files, str): files = [files]
    f = ", ".join(os.path.basename(x) for x in files[:2])
    what = (m.get("what_it_breaks") or "").replace("|", "/").replace("\n", " ")
    what = re.sub(r"\s+", " ", what)
    if len(what) > 140: what = what[:137].rsplit(" ", 1)[0] + " …"
    def verdict(c):
        if not c: return "–"
        r = c.get(prop)
        if not r: return "–"
        if r["exit"] != 1 or not r["violation"]: return "missed"
        return "VIOLATION, no input" if r["violation"][0].endswith("no-failing-input-found") else "VIOLATION + replay"
    first = verdict(m.get("verification", {}).get("checks"))
    rc = m.get("recheck", {})
    now = verdict(rc.get("checks")) if rc.get("applies", True) else "patch no longer applies"
    rows.append(f"| {i} | {f} | {what} | {first} | {now} |")
print("| change | file | what it breaks | first run | now |\n|---|---|---|---|---|")
print("\n".join(rows))
