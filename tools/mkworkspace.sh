#!/bin/sh
# Scratch workspace for building one property in isolation: a copy of /verif and a git worktree of /repo
# (branch w-<name>) under /tmp/w-<name>. Remove with: tools/rmworkspace.sh <name>
set -e
n="$1"; d="/tmp/w-$n"
mkdir -p "$d"
git -C /repo worktree add -q "$d/repo" -b "w-$n" HEAD
cp -a /verif "$d/verif"
rm -f "$d/verif/.lock"
echo "$d"
