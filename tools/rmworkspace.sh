#!/bin/sh
n="$1"; d="/tmp/w-$n"
git -C /repo worktree remove --force "$d/repo" 2>/dev/null || true
rm -rf "$d"
