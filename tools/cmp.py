#!/usr/bin/env python3
"""tools/cmp.py <prop> [tier] [seed] — run harness generator + driver, summarise (development aid)."""
import subprocess, sys, collections, os
V=os.path.dirname(os.path.dirname(os.path.abspath(__file__)))
prop=sys.argv[1]; tier=sys.argv[2] if len(sys.argv)>2 else "quick"; seed=sys.argv[3] if len(sys.argv)>3 else "1"
ops=f"/tmp/cmp-{prop}.ops"; out=f"/tmp/cmp-{prop}.out"
r=subprocess.run([V+"/bin/harness","-prop",prop,"-tier",tier,"-seed",seed,"-out",ops],stderr=subprocess.PIPE,text=True)
if r.returncode: print(r.stderr[-3000:]); sys.exit(1)
subprocess.run([V+"/lean/.lake/build/bin/lalmodel"],stdin=open(ops),stdout=open(out,"w"),check=True)
c=collections.Counter(); shown=collections.Counter()
for o,l in zip(open(ops),open(out)):
    o=o.rstrip("\n"); l=l.rstrip("\n")
    op,_,impl=o.partition(" => "); model,_,verd=l.rpartition(" | ")
    comp=op.split(" ")[0]; agree=(model==impl)
    c[(comp,verd.split(":")[0] if verd.startswith("na") else verd,agree)]+=1
    key=(comp,agree,verd)
    if (not agree or verd.startswith("bad") or verd.startswith("na:")) and shown[key]<2:
        shown[key]+=1
        print("----",verd,"agree" if agree else "DISAGREE"); print(" op   ",op[:300]); print(" impl ",impl[:300]); print(" model",model[:300])
for k,v in sorted(c.items()): print(k,v)
