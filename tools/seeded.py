#!/usr/bin/env python3
"""tools/seeded.py <Cxx> [k ...] : confirm the seeded changes an independent agent left in /tmp/m-<Cxx>/seeded and
run the registered check(s) against them. For each change k:
  1. in the scratch worktree /tmp/m-<Cxx>: apply → go build → full test suite passes → demo FAILS; revert → demo passes;
  2. apply to /repo, run ./check for the property (and any extra checks given with --also), undo;
  3. store /verif/seeded/<Cxx>-<k>/{patch.diff, demo*, meta.json} with what was run and what the checks said.
"""
import json, os, shutil, subprocess, sys, glob, re
ENV = dict(os.environ, VERIF_SEARCH_SEEDS=os.environ.get("VERIF_SEARCH_SEEDS", "1"), GOFLAGS="-mod=mod", GOPROXY="off", GOSUMDB="off", GOTOOLCHAIN="local")
def sh(cmd, cwd, timeout=1800):
    r = subprocess.run(cmd, shell=True, cwd=cwd, env=ENV, capture_output=True, text=True, timeout=timeout)
    return r.returncode, (r.stdout + r.stderr)
pid = sys.argv[1]
also = []
ks = []
for a in sys.argv[2:]:
    if a.startswith("--also="): also = a[7:].split(",")
    else: ks.append(a)
PREFIX = os.environ.get("SEED_PREFIX", "m"); OFFSET = int(os.environ.get("SEED_OFFSET", "0"))
W = f"/tmp/{PREFIX}-{pid}"
S = f"{W}/seeded"
if not ks:
    ks = sorted(re.findall(r"change(\d+)\.diff", " ".join(os.listdir(S))))
for k in ks:
    print(f"== {pid} change {k}")
    diff = f"{S}/change{k}.diff"
    cmd = open(f"{S}/demo{k}.cmd").read().strip()
    rec = dict(property=pid, change=int(k) + OFFSET)
    rc, out = sh("git checkout -- . && git status --short | grep -v '^??' | wc -l", W)
    # baseline demo passes
    rc0, out0 = sh(cmd, W)
    rec["demo_on_unchanged"] = "pass" if rc0 == 0 else "FAIL"
    sh("git checkout -- . ; git clean -fdq -e seeded -e TASK.md", W)
    rc, out = sh(f"git apply {diff}", W)
    if rc: print("  cannot apply", out[-300:]); continue
    rcb, outb = sh("go build ./... ", W)
    rct, outt = sh("go test -vet=off -count=1 $(go list ./... | grep -v /seeded) 2>&1 | grep -v '^ok\\|no test files' | grep '^FAIL\\|^---\\|^panic' | grep -v 'lal/seeded' ; true", W)
    rec["builds"] = rcb == 0
    rec["suite_with_change"] = "pass" if outt.strip() == "" else "FAIL: " + outt[-400:]
    rc1, out1 = sh(cmd, W)
    rec["demo_with_change"] = "fail (as intended)" if rc1 != 0 else "PASSES (change not demonstrated)"
    rec["demo_output_tail"] = out1[-600:]
    sh("git checkout -- . ; git clean -fdq -e seeded -e TASK.md", W)
    ok = rec["demo_on_unchanged"] == "pass" and rec["builds"] and rec["suite_with_change"] == "pass" and rc1 != 0
    rec["confirmed"] = ok
    print("  confirmed" if ok else "  NOT CONFIRMED", {k2: v for k2, v in rec.items() if k2 != "demo_output_tail"})
    # run checks against /repo
    res = {}
    rc, out = sh(f"git -C /repo status --short | grep -v '^??' | wc -l", "/verif")
    if out.strip() != "0": print("  /repo not clean, skipping"); continue
    rc, out = sh(f"git -C /repo apply {diff}", "/verif")
    if rc: print("  cannot apply to /repo", out[-300:]); continue
    try:
        for c in [pid] + also:
            rcc, outc = sh(f"./check {c} --no-evidence", "/verif", timeout=3600)
            v = [l for l in outc.splitlines() if l.startswith("VIOLATION")]
            res[c] = dict(exit=rcc, violation=v[:2], summary=[l for l in outc.splitlines() if l.startswith(c + ":")][-1:] )
            print("  check", c, "exit", rcc, v[:1])
    finally:
        sh("git -C /repo checkout -- .", "/verif")
    rec["checks"] = res
    rec["detected_by"] = [c for c, r in res.items() if r["exit"] == 1 and r["violation"]]
    d = f"/verif/seeded/{pid}-{int(k) + OFFSET}"
    os.makedirs(d, exist_ok=True)
    shutil.copyfile(diff, f"{d}/patch.diff")
    for f in glob.glob(f"{S}/demo{k}*"):
        if os.path.isdir(f): shutil.copytree(f, f"{d}/{os.path.basename(f)}", dirs_exist_ok=True)
        else: shutil.copyfile(f, f"{d}/{os.path.basename(f)}")
    meta = {}
    try: meta = json.load(open(f"{S}/meta{k}.json"))
    except Exception: pass
    meta.update(verification=rec)
    json.dump(meta, open(f"{d}/meta.json", "w"), indent=1)
    # replays written by the check runs on the mutated tree are not kept
    sh("rm -f /verif/replays/*.json", "/verif")
