#!/usr/bin/env python3
"""tools/postmerge.py <name>: after merge_workspace — append the workspace's BUILDER.md notes, remap lal commit shas in
known_findings.json (workspace branch sha -> cherry-picked sha on main, matched by subject), list hook commits."""
import json, re, subprocess, sys
name = sys.argv[1]
def sh(*a): return subprocess.run(a, text=True, capture_output=True).stdout
W = f"/tmp/w-{name}/verif"
a = open(f"{W}/docs/BUILDER.md").read().splitlines(); b = open("/verif/docs/BUILDER.md").read().splitlines()
bs = set(b); add = [l for l in a if l not in bs and l.strip()]
if add:
    open("/verif/docs/BUILDER.md", "a").write(f"\n## Notes from builder {name}\n" + "\n".join(add) + "\n")
    print("BUILDER.md +", len(add), "lines")
main = {}
for l in sh("git", "-C", "/repo", "log", "--format=%h %s", "main").splitlines():
    h, _, s = l.partition(" "); main.setdefault(s, h)
m = {}
for l in sh("git", "-C", "/repo", "log", "--format=%h %H %s", f"w-{name}").splitlines():
    h, H, s = l.split(" ", 2)
    if s in main: m[h] = main[s]
    if s.startswith("verif hook") : print("HOOK", main.get(s), s)
txt = open("/verif/known_findings.json").read()
n = 0
for old, new in m.items():
    if old != new and old in txt:
        txt = txt.replace(old, new); n += 1
open("/verif/known_findings.json", "w").write(txt); json.loads(txt)
print("remapped", n, "shas")
