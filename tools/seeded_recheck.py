#!/usr/bin/env python3
"""tools/seeded_recheck.py [id ...] [--also=Cxx,Cyy]: apply each kept seeded change (/verif/seeded/<id>/patch.diff) to /repo,
run the check of its property (and --also ones), undo, and record the outcome in meta.json ("recheck")."""
import json, os, subprocess, sys, glob, time
ENV = dict(os.environ, VERIF_SEARCH_SEEDS=os.environ.get("VERIF_SEARCH_SEEDS", "1"), GOFLAGS="-mod=mod", GOPROXY="off", GOSUMDB="off", GOTOOLCHAIN="local")
def sh(cmd, timeout=3600):
    r = subprocess.run(cmd, shell=True, cwd="/verif", env=ENV, capture_output=True, text=True, timeout=timeout)
    return r.returncode, r.stdout + r.stderr
also = []; ids = []
for a in sys.argv[1:]:
    if a.startswith("--also="): also = a[7:].split(",")
    else: ids.append(a)
if not ids: ids = sorted(os.path.basename(d) for d in glob.glob("/verif/seeded/*") if os.path.isdir(d))
for i in ids:
    d = f"/verif/seeded/{i}"
    meta = json.load(open(f"{d}/meta.json"))
    prop = i.split("-")[0]
    rc, out = sh("git -C /repo status --short | grep -v '^??' | wc -l")
    if out.strip() != "0": print("/repo not clean"); sys.exit(1)
    rc, out = sh(f"git -C /repo apply {d}/patch.diff")
    if rc: print(i, "does not apply any more:", out[-200:].strip()); meta["recheck"] = dict(applies=False); json.dump(meta, open(f"{d}/meta.json", "w"), indent=1); continue
    res = {}
    try:
        for c in [prop] + also:
            t = time.time()
            rcc, outc = sh(f"./check {c} --no-evidence")
            v = [l for l in outc.splitlines() if l.startswith("VIOLATION")]
            res[c] = dict(exit=rcc, violation=v[:1], with_replay=bool(v) and not v[0].endswith("no-failing-input-found"), seconds=round(time.time() - t))
    finally:
        sh("git -C /repo checkout -- .")
        sh("rm -f /verif/replays/*.json")
    meta["recheck"] = dict(applies=True, checks=res, detected_by=[c for c, r in res.items() if r["exit"] == 1 and r["violation"]])
    json.dump(meta, open(f"{d}/meta.json", "w"), indent=1)
    print(i, {c: ("VIOLATION" + ("" if r["with_replay"] else " (no input)") if r["exit"] == 1 else "missed") for c, r in res.items()})
