#!/usr/bin/env python3
"""Regenerates MANIFEST.json from checklib/props.py + checklib/manifest_meta.py and validates it."""
import json, os, sys
V = os.path.dirname(os.path.abspath(__file__))
sys.path.insert(0, os.path.join(V, "checklib"))
from props import PROPS
from props import META
from manifest_meta import NOT_APPLICABLE, HOOK_COMMITS, NOTES, HOLD
for _k in HOLD:
    PROPS.pop(_k, None)
NOT_APPLICABLE = dict(NOT_APPLICABLE, **HOLD)

checks = []
for pid in sorted(PROPS):
    m = META[pid]
    checks.append(dict(
        property_id=pid,
        quick_cmd=f"./check {pid} --tier quick",
        thorough_cmd=f"./check {pid} --tier thorough",
        evidence_file=f"/verif/evidence/{pid}.json",
        replay_cmd_template=f"./check {pid} --replay {{path}}",
        engine="lean4-proof+correspondence",
        level_claimed=dict(category=PROPS[pid]["level"], text=m["text"], design_ref=m["design_ref"]),
        level_note=m["note"],
        technique=m["technique"],
    ))
man = dict(
    version=1,
    setup_cmd="./setup.sh",
    hooks=dict(guard="verif", enable="go build -tags verif (harness module replaces github.com/q191201771/lal => /repo)",
               baseline_off_cmd="cd /repo && go test -vet=off -count=1 ./...",
               source_commits=HOOK_COMMITS, add_only=True),
    engines=[dict(name="lean4-proof+correspondence", path="/verif/check",
                  serves_properties=sorted(PROPS),
                  kind_free_text="Lean 4 theorems about hand-written models (lean/LalModel), tied to /repo by a differential correspondence check (harness/ + lean/Driver) and regenerated facts (lean/LalModel/Generated)")],
    checks=checks,
    notes=NOTES,
    not_applicable=[dict(property_id=k, reason=v) for k, v in sorted(NOT_APPLICABLE.items()) if k not in PROPS],
)
json.dump(man, open(os.path.join(V, "MANIFEST.json"), "w"), indent=1)
try:
    import jsonschema
    jsonschema.validate(man, json.load(open("/root/.vp/MANIFEST.schema.json")))
    print("MANIFEST.json valid;", len(checks), "checks,", len(man["not_applicable"]), "not claimed")
except ImportError:
    print("written (jsonschema not importable here; validate with python3-vt)")
